(* M-Frame: the metadata bookkeeping behind a TableDataFrame - ComplementaryTableInfo
   (_update_columns, _check_dataframe with _last_dataframe_state, units), ColumnMetadata
   (check_dtype, from_dtype, update_from), unit_from_dtype, add_column, set_units
   (pdtable/table_metadata.py, pdtable/frame.py), as repaired by the fix: commits.
   The dataframe itself is abstracted to its list of (column name, dtype) and its emptiness:
   that is all the bookkeeping ever reads. *)
From PdV Require Export Text.
Local Open Scope N_scope.

(* numpy dtype kinds as unit_from_dtype sees them *)
Inductive kind := KBool | KNumeric (* i u f M *) | KText (* O S U *) | KOther (* anything else *).
(* a dtype: its kind and a tag distinguishing dtypes of the same kind (int64 / float64 / ...) *)
Definition dtype : Type := kind * N.

Definition u_text : str := [116; 101; 120; 116].
Definition u_onoff : str := [111; 110; 111; 102; 102].
Definition u_dash : str := [45].

Definition is_special (u : str) : bool := str_eqb u u_text || str_eqb u u_onoff.

(* unit_from_dtype: None = ValueError *)
Definition unit_from_kind (k : kind) : option str :=
  match k with
  | KBool => Some u_onoff
  | KNumeric => Some u_dash
  | KText => Some u_text
  | KOther => None
  end.

Record colmeta := { cm_unit : str; cm_display_unit : option str; cm_format : option str }.

Inductive outcome (A : Type) :=
| Fine (a : A)
| ColumnUnitExc        (* ColumnUnitException *)
| NamingExc            (* InvalidNamingError: duplicate column names *)
| ValueExc.            (* ValueError from unit_from_dtype *)
Arguments Fine {A}. Arguments ColumnUnitExc {A}. Arguments NamingExc {A}. Arguments ValueExc {A}.

(* ColumnMetadata.check_dtype *)
Definition check_dtype (m : colmeta) (d : dtype) : outcome unit :=
  match unit_from_kind (fst d) with
  | None => ValueExc
  | Some base =>
      if is_special base then (if str_eqb base (cm_unit m) then Fine tt else ColumnUnitExc)
      else if is_special (cm_unit m) then ColumnUnitExc else Fine tt
  end.

(* the column register: an insertion-ordered dict name -> ColumnMetadata *)
Definition register := list (str * colmeta).

Fixpoint reg_get (n : str) (r : register) : option colmeta :=
  match r with
  | [] => None
  | (k, m) :: rest => if str_eqb k n then Some m else reg_get n rest
  end.
Fixpoint reg_set (n : str) (m : colmeta) (r : register) : register :=
  match r with
  | [] => [(n, m)]
  | (k, m') :: rest => if str_eqb k n then (k, m) :: rest else (k, m') :: reg_set n m rest
  end.
Definition reg_has (n : str) (r : register) : bool :=
  match reg_get n r with Some _ => true | None => false end.

Definition mem_str (s : str) (l : list str) : bool := existsb (str_eqb s) l.
Fixpoint has_dup (l : list str) : bool :=
  match l with [] => false | x :: t => mem_str x t || has_dup t end.

Record frame := {
  f_cols : list (str * dtype);          (* df.columns with their dtypes, in order *)
  f_empty : bool;                       (* df.empty *)
  f_strict : bool;                      (* metadata.strict_types *)
  f_reg : register;                     (* ComplementaryTableInfo.columns *)
  f_last : option (list (str * dtype))  (* _last_dataframe_state *)
}.

Definition names (f : frame) : list str := map fst (f_cols f).

Inductive exc := EColumnUnit | ENaming | EValue.

(* the strict-types loop of _update_columns over df.columns; the register is mutated in place, so
   on an exception the entries registered so far stay *)
Fixpoint update_loop (cols : list (str * dtype)) (empty : bool) (r : register) : register * option exc :=
  match cols with
  | [] => (r, None)
  | (n, d) :: rest =>
    if empty then update_loop rest empty r
    else match reg_get n r with
         | Some m => match check_dtype m d with
                     | Fine _ => update_loop rest empty r
                     | ColumnUnitExc => (r, Some EColumnUnit)
                     | NamingExc => (r, Some ENaming)
                     | ValueExc => (r, Some EValue)
                     end
         | None => match unit_from_kind (fst d) with
                   | Some u => update_loop rest empty
                                 (reg_set n {| cm_unit := u; cm_display_unit := None; cm_format := None |} r)
                   | None => (r, Some EValue)
                   end
         end
  end.

(* keep the register in dataframe column order (the repair of the positional-units defect) *)
Definition reorder (cols : list str) (r : register) : register :=
  flat_map (fun n => match reg_get n r with Some m => [(n, m)] | None => [] end) cols.

Definition update_columns (f : frame) : register * option exc :=
  if has_dup (names f) then (f_reg f, Some ENaming)
  else
    let r0 := filter (fun km => mem_str (fst km) (names f)) (f_reg f) in
    match (if f_strict f then update_loop (f_cols f) (f_empty f) r0 else (r0, None)) with
    | (r1, None) => (reorder (names f) r1, None)
    | (r1, Some e) => (r1, Some e)
    end.

Definition dtype_eqb (a b : dtype) : bool :=
  (match fst a, fst b with
   | KBool, KBool | KNumeric, KNumeric | KText, KText | KOther, KOther => true
   | _, _ => false
   end) && (snd a =? snd b).
Fixpoint state_eqb (a b : list (str * dtype)) : bool :=
  match a, b with
  | [], [] => true
  | (n, d) :: a', (n', d') :: b' => str_eqb n n' && dtype_eqb d d' && state_eqb a' b'
  | _, _ => false
  end.

(* _check_dataframe: what every checked access (get_table_info) runs.  On an exception the
   register keeps what was done to it and the snapshot is dropped (the repair of the
   refused-consultation defect); an empty frame is never remembered as validated (the repair of
   the empty-snapshot defect). *)
Definition with_reg (f : frame) (r : register) (last : option (list (str * dtype))) : frame :=
  {| f_cols := f_cols f; f_empty := f_empty f; f_strict := f_strict f; f_reg := r; f_last := last |}.

Definition consult (f : frame) : frame * option exc :=
  if (match f_last f with Some st => state_eqb st (f_cols f) | None => false end) then (f, None)
  else match update_columns f with
       | (r, None) => (with_reg f r (if f_empty f then None else Some (f_cols f)), None)
       | (r, Some e) => (with_reg f r None, Some e)
       end.

(* Table.units: positional, from the register *)
Definition units (f : frame) : list str := map (fun km => cm_unit (snd km)) (f_reg f).
(* Table[name].unit *)
Definition unit_of (f : frame) (n : str) : option str :=
  match reg_get n (f_reg f) with Some m => Some (cm_unit m) | None => None end.

(* steps: what can happen to a frame between two consultations *)
Fixpoint set_col (n : str) (d : dtype) (cols : list (str * dtype)) : list (str * dtype) :=
  match cols with
  | [] => [(n, d)]
  | (k, d') :: rest => if str_eqb k n then (k, d) :: rest else (k, d') :: set_col n d rest
  end.

(* ColumnMetadata.update_from *)
Definition update_from (a b : colmeta) : colmeta :=
  {| cm_unit := cm_unit b;
     cm_display_unit := match cm_display_unit a with Some x => Some x | None => cm_display_unit b end;
     cm_format := match cm_format a with Some x => Some x | None => cm_format b end |}.

Inductive step :=
| SData (cols : list (str * dtype)) (empty : bool)   (* any direct manipulation of the dataframe *)
| SAddColumn (n : str) (d : dtype) (u : option str) (empty : bool)  (* frame.add_column / t[n] = v;
                                                        empty = df.empty afterwards *)
| SRelabel (n : str) (u : str)                       (* unit setter with a non-special unit on a
                                                        column whose unit is not special *)
| SConsult.                                          (* any checked access *)

(* add_column: df[name] = values; then the register entry is created or updated; the validated
   snapshot is dropped (the repair of the stale-snapshot defect) *)
Definition add_column (f : frame) (n : str) (d : dtype) (u : option str) (empty : bool) : outcome frame :=
  match (match u with
         | Some x => Some {| cm_unit := x; cm_display_unit := None; cm_format := None |}
         | None => match unit_from_kind (fst d) with
                   | Some x => Some {| cm_unit := x; cm_display_unit := None; cm_format := None |}
                   | None => None
                   end
         end) with
  | None => ValueExc
  | Some new_col =>
      let cols := set_col n d (f_cols f) in
      let r := match reg_get n (f_reg f) with
               | Some old => reg_set n (update_from old new_col) (f_reg f)
               | None => f_reg f ++ [(n, new_col)]
               end in
      Fine {| f_cols := cols; f_empty := empty; f_strict := f_strict f; f_reg := r; f_last := None |}
  end.

Definition relabel (f : frame) (n u : str) : frame :=
  match reg_get n (f_reg f) with
  | Some m =>
      if is_special u || is_special (cm_unit m) then f
      else {| f_cols := f_cols f; f_empty := f_empty f; f_strict := f_strict f;
              f_reg := reg_set n {| cm_unit := u; cm_display_unit := cm_display_unit m; cm_format := cm_format m |} (f_reg f);
              f_last := f_last f |}
  | None => f
  end.

(* the unit setter as the code has it: any unit, no check (a pure metadata edit) *)
Definition relabel_any (f : frame) (n u : str) : frame :=
  match reg_get n (f_reg f) with
  | Some m => {| f_cols := f_cols f; f_empty := f_empty f; f_strict := f_strict f;
                 f_reg := reg_set n {| cm_unit := u; cm_display_unit := cm_display_unit m; cm_format := cm_format m |} (f_reg f);
                 f_last := f_last f |}
  | None => f
  end.

(* one step; an exception leaves the frame as it was before the step (the caller gets the error) -
   except that a failed add_column has already assigned the data *)
Definition do_step (f : frame) (s : step) : frame * bool (* raised? *) :=
  match s with
  | SData cols empty =>
      ({| f_cols := cols; f_empty := empty; f_strict := f_strict f; f_reg := f_reg f; f_last := f_last f |}, false)
  | SAddColumn n d u e =>
      match add_column f n d u e with
      | Fine f' => (f', false)
      | _ => ({| f_cols := set_col n d (f_cols f); f_empty := e; f_strict := f_strict f;
                 f_reg := f_reg f; f_last := None |}, true)
      end
  | SRelabel n u => (relabel f n u, false)
  | SConsult => match consult f with (f', None) => (f', false) | (f', Some _) => (f', true) end
  end.

Definition run (f : frame) (ss : list step) : frame := fold_left (fun g s => fst (do_step g s)) ss f.

(* make_table_dataframe(df, units=...): register from zip(df.columns, units), then a first check *)
Fixpoint zip_units (cols : list (str * dtype)) (us : list str) : register :=
  match cols, us with
  | (n, _) :: cs, u :: us' => (n, {| cm_unit := u; cm_display_unit := None; cm_format := None |}) :: zip_units cs us'
  | _, _ => []
  end.
Fixpoint dedup_reg (r : register) : register :=    (* dict construction: later keys overwrite *)
  match r with
  | [] => []
  | (n, m) :: rest => reg_set n m (dedup_reg rest)
  end.
Definition make_frame (cols : list (str * dtype)) (empty strict : bool) (us : option (list str)) : frame * option exc :=
  consult {| f_cols := cols; f_empty := empty; f_strict := strict;
             f_reg := match us with Some l => rev (dedup_reg (rev (zip_units cols l))) | None => [] end;
             f_last := None |}.

(* TableDataFrame.__finalize__ for a pandas result with a single metadata-carrying source:
   _combine_tables copies the source's register entries of the surviving columns (in the source's
   register order), then the new frame is checked *)
Definition finalize (src : frame) (cols : list (str * dtype)) (empty : bool) : frame * option exc :=
  consult {| f_cols := cols; f_empty := empty; f_strict := f_strict src;
             f_reg := filter (fun km => mem_str (fst km) (map fst cols)) (f_reg src);
             f_last := None |}.
