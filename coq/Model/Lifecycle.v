(* M-Life: the open/close protocol of the reader generators (read_csv: 'with open(...)' inside the
   generator, nullcontext for caller streams; read_excel: closing(workbook) inside read_sheets, closed
   in a finally clause of read_excel; load_files: one such reader at a time) and of the writers
   (write_csv: 'with open(to, "w")' only for path-like targets; write_excel: nothing is created
   before every table is serialised).  CPython's part - a dropped generator is finalised at once -
   is hypothesis H_gen_finalise: 'drop' is modelled as 'close'. *)
From Coq Require Export List Bool Arith.
Export ListNotations.

(* ---------- a reader generator over one source ---------- *)
Inductive gstate :=
| Fresh                 (* created, not started: nothing opened yet *)
| Suspended (k : nat)   (* k blocks delivered, suspended at a yield inside the 'with' *)
| Finished.             (* exhausted, closed, dropped or ended by an error *)

Inductive gevent := GNext | GClose | GDrop.

Record reader := {
  r_blocks : nat;               (* number of blocks the source holds *)
  r_fault : option nat;         (* a block that raises when it is reached (0-based), if any *)
  r_owns : bool                 (* opened from a path (true) or a caller-supplied stream (false) *)
}.

(* the ledger: files this reader opened / closed; closes of the caller's stream *)
Record ledger := { opened : nat; closed : nat; caller_closed : nat }.
Definition l0 : ledger := {| opened := 0; closed := 0; caller_closed := 0 |}.
Definition do_open (r : reader) (l : ledger) : ledger :=
  if r_owns r then {| opened := S (opened l); closed := closed l; caller_closed := caller_closed l |} else l.
Definition do_close (r : reader) (l : ledger) : ledger :=
  if r_owns r then {| opened := opened l; closed := S (closed l); caller_closed := caller_closed l |} else l.

Inductive outcome := Yielded | Stopped | Raised | Nothing.

(* advance the body from position k (the file is open): deliver block k, or end *)
Definition advance (r : reader) (k : nat) (l : ledger) : gstate * ledger * outcome :=
  if Nat.eqb k (r_blocks r) then (Finished, do_close r l, Stopped)          (* loop ends: 'with' exits *)
  else match r_fault r with
       | Some f => if Nat.eqb f k then (Finished, do_close r l, Raised)     (* exception unwinds the 'with' *)
                   else (Suspended (S k), l, Yielded)
       | None => (Suspended (S k), l, Yielded)
       end.

Definition gstep (r : reader) (s : gstate) (l : ledger) (e : gevent) : gstate * ledger * outcome :=
  match s, e with
  | Fresh, GNext => advance r 0 (do_open r l)
  | Suspended k, GNext => advance r k l
  | Suspended k, (GClose | GDrop) => (Finished, do_close r l, Nothing)      (* GeneratorExit at the yield *)
  | Fresh, (GClose | GDrop) => (Finished, l, Nothing)                       (* never started: nothing to close *)
  | Finished, _ => (Finished, l, match e with GNext => Stopped | _ => Nothing end)
  end.

Fixpoint grun (r : reader) (s : gstate) (l : ledger) (es : list gevent) : gstate * ledger :=
  match es with
  | [] => (s, l)
  | e :: rest => let '(s', l', _) := gstep r s l e in grun r s' l' rest
  end.

Definition held (l : ledger) : nat := opened l - closed l.

(* ---------- writers ---------- *)
(* write_csv(tables, to): tables serialise in order; table j may fail *)
Definition write_csv_ledger (owns : bool) (n_tables : nat) (fail_at : option nat) : ledger * bool (* raised *) :=
  let r := {| r_blocks := n_tables; r_fault := fail_at; r_owns := owns |} in
  let l1 := do_open r l0 in
  match fail_at with
  | Some j => if Nat.ltb j n_tables then (do_close r l1, true) else (do_close r l1, false)
  | None => (do_close r l1, false)
  end.

(* write_excel: the workbook is built in memory; the target is created by wb.save only after every
   table was appended *)
Definition write_excel_ledger (owns : bool) (n_tables : nat) (fail_at : option nat) : ledger * bool :=
  let r := {| r_blocks := n_tables; r_fault := fail_at; r_owns := owns |} in
  match fail_at with
  | Some j => if Nat.ltb j n_tables then (l0, true) else (do_close r (do_open r l0), false)
  | None => (do_close r (do_open r l0), false)
  end.

(* ---------- load_files over several locations ---------- *)
(* queued_load reads one location at a time ('yield from reader.read(...)'): the next file is opened
   only after the previous reader is exhausted (and has closed its file); with the default (raising)
   issue tracker an error raised by a block ends the whole load; closing or dropping the loader closes
   the reader it is suspended in.
   State: the readers not yet exhausted IN READING ORDER (the head is the current one; the work queue
   is popped from its end, so this is the reverse of the order of the root items) and the current
   one's state.  load_files takes path specifications only: every reader of such a list owns its file. *)
Fixpoint lnext (rs : list reader) (s : gstate) (l : ledger) : list reader * gstate * ledger * outcome :=
  match rs with
  | [] => ([], Finished, l, Stopped)
  | r :: rest =>
      let '(s', l', o) := gstep r s l GNext in
      match o with
      | Yielded => (r :: rest, s', l', Yielded)
      | Raised => ([], Finished, l', Raised)
      | _ => lnext rest Fresh l'
      end
  end.

Definition lstep (rs : list reader) (s : gstate) (l : ledger) (e : gevent) : list reader * gstate * ledger * outcome :=
  match e with
  | GNext => lnext rs s l
  | _ => match rs with
         | [] => ([], Finished, l, Nothing)
         | r :: _ => let '(_, l', o) := gstep r s l e in ([], Finished, l', o)
         end
  end.

Fixpoint lrun (rs : list reader) (s : gstate) (l : ledger) (es : list gevent) : list reader * gstate * ledger :=
  match es with
  | [] => (rs, s, l)
  | e :: rest => let '(rs', s', l', _) := lstep rs s l e in lrun rs' s' l' rest
  end.
