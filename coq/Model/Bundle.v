(* M-Bundle: pdtable.store.TableBundle over an abstract table representation T.
   [name_of t = None] stands for "no name can be extracted" (NotImplementedError). *)
From Coq Require Export ZArith.
From PdV Require Export Text.

Section Bundle.
Variable T : Type.
Variable name_of : T -> option str.

(* the two stores: dict name -> list of tables (insertion order), and the list in order *)
Record bundle := { named : list (str * list T); in_order : list T }.

Fixpoint named_add (n : str) (t : T) (d : list (str * list T)) : list (str * list T) :=
  match d with
  | [] => [(n, [t])]
  | (k, l) :: rest => if str_eqb k n then (k, l ++ [t]) :: rest else (k, l) :: named_add n t rest
  end.

Fixpoint named_get (n : str) (d : list (str * list T)) : option (list T) :=
  match d with
  | [] => None
  | (k, l) :: rest => if str_eqb k n then Some l else named_get n rest
  end.

(* a block: is it a TABLE block, and its content *)
Definition blk : Type := bool * T.

(* TableBundle.__init__; None = NotImplementedError raised for some table block *)
Fixpoint build_from (b : bundle) (bs : list blk) : option bundle :=
  match bs with
  | [] => Some b
  | (false, _) :: rest => build_from b rest
  | (true, t) :: rest =>
    match name_of t with
    | None => None
    | Some n => build_from {| named := named_add n t (named b); in_order := in_order b ++ [t] |} rest
    end
  end.
Definition build (bs : list blk) : option bundle := build_from {| named := []; in_order := [] |} bs.

Inductive lookup := Found (t : T) | NotUnique | Missing.

Definition unique (b : bundle) (n : str) : lookup :=
  match named_get n (named b) with
  | None => Missing
  | Some [] => Missing           (* unreachable: lists in the dict are never empty; lst[0] would raise *)
  | Some [t] => Found t
  | Some _ => NotUnique
  end.

Definition all (b : bundle) (n : str) : list T :=
  match named_get n (named b) with None => [] | Some l => l end.

Definition contains (b : bundle) (n : str) : bool :=
  match named_get n (named b) with None => false | Some _ => true end.

Definition len (b : bundle) : nat := fold_right (fun kl acc => length (snd kl) + acc) 0 (named b).

Definition iter (b : bundle) : list T := in_order b.

(* bundle[i] for a python int i: list indexing with negative indices; None = IndexError *)
Definition getitem_int (b : bundle) (i : Z) : option T :=
  let n := Z.of_nat (length (in_order b)) in
  if (0 <=? i)%Z && (i <? n)%Z then nth_error (in_order b) (Z.to_nat i)
  else if (i <? 0)%Z && (- n <=? i)%Z then nth_error (in_order b) (Z.to_nat (n + i))
  else None.
End Bundle.

Arguments named {T}. Arguments in_order {T}. Arguments build {T}. Arguments build_from {T}.
Arguments unique {T}. Arguments all {T}. Arguments contains {T}. Arguments len {T}. Arguments iter {T}.
Arguments getitem_int {T}. Arguments named_get {T}. Arguments named_add {T}.
Arguments Found {T}. Arguments NotUnique {T}. Arguments Missing {T}.

(* name extraction from a cell grid's first cell: re.search(r"^\s*\*\*(\S+)\s*", cell0),
   then (since the repair) minus the transposed marker *)
Local Open Scope N_scope.
Fixpoint take_nonspace (s : str) : str :=
  match s with
  | c :: t => if is_space c then [] else c :: take_nonspace t
  | [] => []
  end.
Definition strip_star (s : str) : str :=
  match rev s with
  | 42 :: r => rev r
  | _ => s
  end.
Definition grid_name_raw (cell0 : str) : option str :=
  match lstrip cell0 with
  | 42 :: 42 :: rest => match take_nonspace rest with [] => None | n => Some n end
  | _ => None
  end.
Definition grid_name (cell0 : str) : option str :=
  match grid_name_raw cell0 with Some n => Some (strip_star n) | None => None end.
