(* M-Write (Excel): _append_table_to_openpyxl_worksheet, the row bookkeeping of
   _style_tables_in_worksheet (pdtable/io/_excel_openpyxl.py) and the workbook as read_excel sees it. *)
From PdV Require Export Text Cell.
From PdV.Model Require Export WriteCsv.
Local Open Scope N_scope.

(* _represent_element without str(): the native value put in the cell *)
Definition xl_cell (unit : str) (in_first_column : bool) (v : wval) : cell :=
  if negb (str_eqb unit u_text) && (match v with WMissing _ => true | _ => false end) then CStr na_rep
  else if str_eqb unit u_onoff then
    match v with
    | WBool b => CInt (if b then 1 else 0)%Z (if b then one_tok else zero_tok) (if b then [49] else [48])
    | WNum f r => CFloat f r
    | _ => CStr (wval_str v)
    end
  else if str_eqb unit u_text then
    match v with
    | WText [] => CStr (if in_first_column then na_rep else [])
    | _ => CStr (wval_str v)
    end
  else match v with
       | WNum f r => CFloat f r
       | WDate d r => CDate d r
       | WBool b => CBool b
       | WText s => CStr s
       | WMissing r => CStr r
       end.

Definition xl_row_cells (cols : list wcol) (i : nat) : list cell :=
  match cols with
  | [] => []
  | c0 :: rest =>
      (match nth_error (wc_vals c0) i with Some v => [xl_cell (wc_unit c0) true v] | None => [] end)
      ++ flat_map (fun c => match nth_error (wc_vals c) i with Some v => [xl_cell (wc_unit c) false v] | None => [] end) rest
  end.

(* the rows appended for one table, followed by sep_lines empty rows *)
Definition xl_table_rows (sep_lines : nat) (t : wtable) : list row :=
  ([CStr (stars ++ w_name t ++ (if w_transposed t then [42] else []))]
   :: [CStr (join [32] (w_dests t))]
   :: (if w_transposed t then
         match w_cols t with
         | [] => []
         | c0 :: rest =>
             (CStr (wc_name c0) :: CStr (wc_unit c0) :: map (xl_cell (wc_unit c0) true) (wc_vals c0))
             :: map (fun c => CStr (wc_name c) :: CStr (wc_unit c) :: map (xl_cell (wc_unit c) false) (wc_vals c)) rest
         end
       else
         map CStr (map wc_name (w_cols t)) :: map CStr (map wc_unit (w_cols t))
         :: map (xl_row_cells (w_cols t)) (seq 0 (n_rows (w_cols t)))))
  ++ repeat [] sep_lines.

(* what openpyxl hands to the reader: every row padded with None to the sheet width *)
Definition pad_row (w : nat) (r : row) : row := r ++ repeat CNone (w - length r).
Definition sheet_rows (sep_lines : nat) (ts : list wtable) : list row :=
  let rows := flat_map (xl_table_rows sep_lines) ts in
  let w := fold_right (fun r m => Nat.max (length r) m) 0%nat rows in
  map (pad_row w) rows.

(* ---------- row bookkeeping: writer vs styler ---------- *)
Definition dims : Type := nat * nat * bool.      (* (len(df), len(df.columns), transposed) *)

(* rows a table occupies, as _append_table_to_openpyxl_worksheet writes them *)
Definition rows_written (sep_lines : nat) (d : dims) : nat :=
  let '(nrows, ncols, tr) := d in
  (2 + (if tr then ncols else 2 + nrows) + sep_lines)%nat.

(* rows a table occupies, as _style_tables_in_worksheet advances i_start *)
Definition rows_styled (sep_lines : nat) (d : dims) : nat :=
  let '(nrows, ncols, tr) := d in
  let true_num_cols := ncols in
  let true_num_rows := (nrows + 2)%nat in
  let '(true_num_cols, true_num_rows) := if tr then (true_num_rows, true_num_cols) else (true_num_cols, true_num_rows) in
  (true_num_rows + 2 + sep_lines)%nat.

(* number of cells per line that get styled vs number written on the widest line of the table *)
Definition cols_styled (d : dims) : nat :=
  let '(nrows, ncols, tr) := d in if tr then (nrows + 2)%nat else ncols.
Definition cols_written (d : dims) : nat :=
  let '(nrows, ncols, tr) := d in if tr then (2 + nrows)%nat else ncols.

Fixpoint starts (f : dims -> nat) (i : nat) (ds : list dims) : list nat :=
  match ds with [] => [] | d :: rest => i :: starts f (i + f d)%nat rest end.
