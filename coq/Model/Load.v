(* M-Load: queued_load (pdtable/io/load/_orchestrators.py) - a LIFO work-list of load items, a set of
   visited load identifiers, readers that yield blocks and enqueue further items - over abstract
   resolution, and its instantiation on a file-system model with include directives
   (FileSystemLoader, FolderReader, IncludeReader of pdtable/io/load/_loaders.py). *)
From PdV Require Export Text.
From PdV.Model Require Export Path.

Section Load.
Variable id : Type.
Variable id_eqb : id -> id -> bool.
Variable item : Type.
Variable resolve : item -> option id.     (* None: the loader raises (LoadError): the load aborts *)
Variable pushes : id -> list item.        (* items the reader of location i enqueues, in order *)
Variable blk : Type.
Variable blocks : id -> list blk.         (* blocks the reader of location i yields, in order *)
Variable raising : bool.                  (* default tracker: an error raises InputError *)

Definition mem (i : id) (l : list id) : bool := existsb (id_eqb i) l.

Inductive ev := Visit (i : id) | Yield (i : id) (b : blk) | Dup (i : id).
Inductive res :=
| Done (visited : list id) (evs : list ev)
| Aborted (it : item) (evs : list ev)        (* resolution failed: LoadError / InputError *)
| DupAbort (i : id) (evs : list ev)        (* repeated location with the raising tracker: InputError *)
| OutOfFuel.

(* stack: head = next to pop.  Python list.append + pop() == push on head. *)
Fixpoint load (fuel : nat) (stack : list item) (visited : list id) (evs : list ev) : res :=
  match fuel with
  | O => OutOfFuel
  | S f =>
    match stack with
    | [] => Done visited evs
    | it :: st =>
      match resolve it with
      | None => Aborted it evs
      | Some i =>
          if mem i visited then
            (if raising then DupAbort i (evs ++ [Dup i]) else load f st visited (evs ++ [Dup i]))
          else load f (rev (pushes i) ++ st) (i :: visited)
                    (evs ++ Visit i :: map (Yield i) (blocks i))
      end
    end
  end.

Definition load_roots (fuel : nat) (roots : list item) : res := load fuel (rev roots) [] [].
End Load.

Arguments Visit {id blk}. Arguments Yield {id blk}. Arguments Dup {id blk}.
Arguments Done {id item blk}. Arguments Aborted {id item blk}. Arguments DupAbort {id item blk}.
Arguments OutOfFuel {id item blk}.

(* ---------- instantiation on a file system ---------- *)
Inductive fblock := FBTable (n : nat) | FBInclude (lines : list str) | FBOther (n : nat).
Inductive xnode := XDir (entries : list str) | XFile (bs : list fblock) | XLink (target : str).
Definition xfs := list (path * xnode).

Definition to_fs (x : xfs) : fsys :=
  map (fun pn => (fst pn, match snd pn with XDir _ => NDir | XFile _ => NFile | XLink t => NLink t end)) x.
Fixpoint xget (x : xfs) (p : path) : option xnode :=
  match x with [] => None | (q, n) :: rest => if path_eqb q p then Some n else xget rest p end.

Definition litem : Type := str * option path.      (* specification, folder of the source location *)

Section FsLoad.
Variable x : xfs.
Variable rfuel : nat.                   (* fuel of realpath *)
Variable root : option path.
Variable matches : str -> bool.         (* file_name_pattern.match *)
Variable allow_include : bool.

(* FileSystemLoader.resolve: LoadError -> None; a resolved path that does not exist -> None as
   well (stat raises FileNotFoundError) *)
Definition fs_resolve (it : litem) : option path :=
  match resolve_item (to_fs x) rfuel root (snd it) (fst it) with
  | ROk p => match xget x p with Some (XDir _) | Some (XFile _) => Some p | _ => None end
  | _ => None
  end.

Definition fs_pushes (p : path) : list litem :=
  match xget x p with
  | Some (XDir es) => map (fun n => (n, Some p)) (filter matches es)
  | Some (XFile bs) =>
      if allow_include then
        flat_map (fun b => match b with FBInclude ls => map (fun l => (l, Some (removelast p))) ls | _ => [] end) bs
      else []
  | _ => []
  end.

Definition fs_blocks (p : path) : list fblock :=
  match xget x p with
  | Some (XFile bs) =>
      if allow_include then filter (fun b => match b with FBInclude _ => false | _ => true end) bs else bs
  | _ => []
  end.

Definition fs_load (raising : bool) (fuel : nat) (roots : list str) :=
  load_roots path path_eqb litem fs_resolve fs_pushes fblock fs_blocks raising fuel
             (map (fun s => (s, None)) roots).
End FsLoad.
