(* M-Mark: decision function for pdtable.io.parsers.blocks._re_block_marker.match(cell)
   followed by the group dispatch of parse_blocks_stable.  Derived by hand from the regex
   (three alternatives anchored at the start of the cell):
     1. two or three stars, neither preceded nor followed by a star
     2. one to three colons not followed by a colon, then non-colon characters to the end
     3. one or more non-colon characters, a colon, then only whitespace to the end
   and tied to the regex engine by an exhaustive small-alphabet sweep (harness, C03). *)
From PdV Require Export Text.
Local Open Scope N_scope.

Inductive mkind := MTable | MDirective | MTemplate | MKey | MPlain.

Definition star : N := 42.
Definition colon : N := 58.

(* number of leading occurrences of c, and the remainder *)
Fixpoint lead (c : N) (s : str) : nat * str :=
  match s with
  | x :: t => if x =? c then let (k, r) := lead c t in (S k, r) else (O, s)
  | [] => (O, [])
  end.

(* alternative 2: one to three leading colons, no colon afterwards *)
Definition is_template (s : str) : bool :=
  let (k, r) := lead colon s in
  (Nat.leb 1 k) && (Nat.leb k 3) && negb (has colon r).

(* alternative 3: first colon at index >= 1, only whitespace after it *)
Fixpoint after_first_colon (s : str) : option str :=
  match s with
  | [] => None
  | c :: t => if c =? colon then Some t else after_first_colon t
  end.
Definition is_key (s : str) : bool :=
  match s with
  | [] => false
  | c :: t => if c =? colon then false
              else match after_first_colon t with
                   | Some r => forallb is_space r
                   | None => false
                   end
  end.

(* alternative 1 first (exactly two / exactly three leading stars); four or more stars fall
   through to the other alternatives, of which only the third can match *)
Definition classify (s : str) : mkind :=
  let k := fst (lead star s) in
  if Nat.eqb k 2 then MTable
  else if Nat.eqb k 3 then MDirective
  else if is_template s then MTemplate
  else if is_key s then MKey
  else MPlain.
