(* M-ConvStore: Table.convert_units as the code performs it - on a store of table objects:
     new_table = Table(self.df.copy())            a new object holding a copy of the columns
     for col in new_table.column_proxies: col.convert_units(...)     IN PLACE on the new object
     return new_table                              or the first exception, which leaves the
                                                   half-converted copy behind, unreferenced
   The pure function Convert.convert_units is the specification; ConvertStoreProofs shows that the
   loop refines it and never writes to an object that existed before the call. *)
From PdV Require Export Convert.
From Coq Require Export List.
Export ListNotations.

Section Store.
Variable V : Type.
Variable conv : str -> option str -> V -> option (V * str).

Definition obj := list (column V).           (* a table object: its columns (values and units) *)
Definition store := list obj.                (* object identifiers are positions *)

Fixpoint set_nth {A} (l : list A) (i : nat) (x : A) : list A :=
  match l, i with
  | [], _ => []
  | _ :: t, O => x :: t
  | h :: t, S j => h :: set_nth t j x
  end.

(* the loop body for column j of object [id]: read the column, convert, write it back in place *)
Definition step_col (st : store) (id j : nat) (t : option str) : store + cerr :=
  match nth_error st id with
  | None => inr EType
  | Some o =>
      match nth_error o j with
      | None => inl st
      | Some c => match convert_col conv c t with
                  | inl c' => inl (set_nth st id (set_nth o j c'))
                  | inr e => inr e
                  end
      end
  end.

(* columns j, j+1, ... with their targets; the store at the moment of the exception is returned too *)
Fixpoint loop (st : store) (id j : nat) (ts : list (option str)) : store * option cerr :=
  match ts with
  | [] => (st, None)
  | t :: rest => match step_col st id j t with
                 | inl st' => loop st' id (S j) rest
                 | inr e => (st, Some e)
                 end
  end.

(* convert_units(self): the store afterwards and the new object's identifier, or the error *)
Definition convert_units_store (d : dispatcher) (st : store) (self : nat) : store * (nat + cerr) :=
  match nth_error st self with
  | None => (st, inr EType)
  | Some cols =>
      match targets d cols with
      | inr e => (st, inr e)                         (* raised before anything is copied or after the copy: no new table *)
      | inl ts =>
          let new := length st in
          let st1 := st ++ [cols] in                 (* Table(self.df.copy()) *)
          let '(st2, r) := loop st1 new 0 (firstn (length cols) ts) in
          match r with
          | None => (st2, inl new)
          | Some e => (st2, inr e)
          end
      end
  end.
End Store.

Arguments set_nth {A}. Arguments step_col {V}. Arguments loop {V}. Arguments convert_units_store {V}.
