(* M-Heap: table metadata as identified mutable objects, to state that pandas results and re-wrapped
   tables never alias their sources (C05).  Transcribes _combine_tables / __finalize__
   (pdtable/frame.py), TableMetadata.__post_init__, ColumnMetadata.copy/update_from
   (pdtable/table_metadata.py) and the re-wrap path of Table.__init__ (pdtable/proxy.py). *)
From PdV Require Export Text.
From PdV.Model Require Export Frame.
Local Open Scope nat_scope.

(* TableOrigin: frozen dataclass, immutable - a value, not a heap object *)
Inductive origin :=
| OLeaf (location : nat)
| ODerived (operation : str) (parents : list origin)
| OAbsent.

Fixpoint ancestors (o : origin) : list nat :=
  match o with
  | OLeaf l => [l]
  | ODerived _ ps => flat_map ancestors ps
  | OAbsent => []
  end.

Record tmeta := { tm_name : str; tm_dests : nat (* id of the set object *); tm_origin : origin;
                  tm_transposed : bool; tm_strict : bool }.

Inductive obj :=
| OCm (m : colmeta)                 (* a ColumnMetadata instance *)
| OSet (l : list str)               (* a destinations set *)
| ODict (l : list (str * nat))      (* a columns dict: name -> id of a ColumnMetadata *)
| OMeta (m : tmeta).                (* a TableMetadata instance *)

Record heap := { nxt : nat; objs : list (nat * obj) }.

Fixpoint hget (id : nat) (l : list (nat * obj)) : option obj :=
  match l with
  | [] => None
  | (k, o) :: rest => if Nat.eqb k id then Some o else hget id rest
  end.
Fixpoint hset (id : nat) (o : obj) (l : list (nat * obj)) : list (nat * obj) :=
  match l with
  | [] => [(id, o)]
  | (k, o') :: rest => if Nat.eqb k id then (k, o) :: rest else (k, o') :: hset id o rest
  end.
Definition get (h : heap) (id : nat) : option obj := hget id (objs h).
Definition put (h : heap) (id : nat) (o : obj) : heap := {| nxt := nxt h; objs := hset id o (objs h) |}.
Definition alloc (h : heap) (o : obj) : heap * nat :=
  ({| nxt := S (nxt h); objs := (nxt h, o) :: objs h |}, nxt h).

(* ComplementaryTableInfo: references to its TableMetadata and its columns dict *)
Record info := { i_meta : nat; i_dict : nat }.

(* ---------- reading a frame's metadata ---------- *)
Definition meta_of (h : heap) (i : info) : option tmeta :=
  match get h (i_meta i) with Some (OMeta m) => Some m | _ => None end.
Definition dict_of (h : heap) (i : info) : list (str * nat) :=
  match get h (i_dict i) with Some (ODict l) => l | _ => [] end.
Definition dests_of (h : heap) (i : info) : list str :=
  match meta_of h i with
  | Some m => match get h (tm_dests m) with Some (OSet l) => l | _ => [] end
  | None => []
  end.
Definition cm_of (h : heap) (id : nat) : option colmeta :=
  match get h id with Some (OCm m) => Some m | _ => None end.

(* what a user can observe of a frame's metadata *)
Record view := { v_name : option str; v_dests : list str; v_units : list (str * option str);
                 v_origin : option origin }.
Definition observe (h : heap) (i : info) : view :=
  {| v_name := option_map tm_name (meta_of h i);
     v_dests := dests_of h i;
     v_units := map (fun nc => (fst nc, option_map cm_unit (cm_of h (snd nc)))) (dict_of h i);
     v_origin := option_map tm_origin (meta_of h i) |}.

(* the mutable objects reachable from a frame *)
Definition owned (h : heap) (i : info) : list nat :=
  i_meta i :: i_dict i ::
  (match meta_of h i with Some m => [tm_dests m] | None => [] end) ++ map snd (dict_of h i).

(* ---------- ColumnMetadata.copy: a new object with the same content ---------- *)
Definition copy_cm (h : heap) (id : nat) : heap * nat :=
  match cm_of h id with
  | Some m => alloc h (OCm m)
  | None => alloc h (OCm {| cm_unit := []; cm_display_unit := None; cm_format := None |})
  end.

Fixpoint dict_get (n : str) (d : list (str * nat)) : option nat :=
  match d with
  | [] => None
  | (k, v) :: rest => if str_eqb k n then Some v else dict_get n rest
  end.

Inductive cexc := ECombine (* InvalidTableCombineError *).

(* step 2 of _combine_tables for one source dict: copy unseen surviving columns, check and merge
   the ones seen before *)
Fixpoint merge_dict (h : heap) (out_cols : list str) (src : list (str * nat)) (acc : list (str * nat))
  : heap * list (str * nat) * option cexc :=
  match src with
  | [] => (h, acc, None)
  | (n, cid) :: rest =>
    if negb (mem_str n out_cols) then merge_dict h out_cols rest acc
    else match dict_get n acc with
         | None => let (h1, nid) := copy_cm h cid in merge_dict h1 out_cols rest (acc ++ [(n, nid)])
         | Some aid =>
             match cm_of h aid, cm_of h cid with
             | Some a, Some c =>
                 if str_eqb (cm_unit a) (cm_unit c)
                 then merge_dict (put h aid (OCm (update_from a c))) out_cols rest acc
                 else (h, acc, Some ECombine)
             | _, _ => merge_dict h out_cols rest acc
             end
         end
  end.

Fixpoint merge_all (h : heap) (out_cols : list str) (srcs : list info) (acc : list (str * nat))
  : heap * list (str * nat) * option cexc :=
  match srcs with
  | [] => (h, acc, None)
  | s :: rest =>
    match merge_dict h out_cols (dict_of h s) acc with
    | (h1, acc1, None) => merge_all h1 out_cols rest acc1
    | r => r
    end
  end.

Definition s_pandas : str := [80; 97; 110; 100; 97; 115; 32]%N.   (* "Pandas " *)

(* _combine_tables: None = no source carries metadata (fall back to a plain DataFrame + warning) *)
Definition combine (h : heap) (srcs : list info) (out_cols : list str) (method : str) (strict : bool)
  : heap * option (info + cexc) :=
  match srcs with
  | [] => (h, None)
  | first :: _ =>
    match meta_of h first with
    | None => (h, None)
    | Some m0 =>
      let origin := ODerived (s_pandas ++ method)
                             (map (fun s => match meta_of h s with Some m => tm_origin m | None => OAbsent end) srcs) in
      (* TableMetadata(...): __post_init__ copies the destinations into a new set *)
      let (h1, sid) := alloc h (OSet (dests_of h first)) in
      let (h2, mid) := alloc h1 (OMeta {| tm_name := tm_name m0; tm_dests := sid; tm_origin := origin;
                                         tm_transposed := false; tm_strict := strict |}) in
      match merge_all h2 out_cols srcs [] with
      | (h3, d, None) => let (h4, did) := alloc h3 (ODict d) in (h4, Some (inl {| i_meta := mid; i_dict := did |}))
      | (h3, _, Some e) => (h3, Some (inr e))
      end
    end
  end.

(* Table(df, name=..., units=...) on an existing table frame: new metadata joined from the old;
   units are given positionally for the current dict order *)
Fixpoint alloc_units (h : heap) (names : list str) (units : list str) : heap * list (str * nat) :=
  match names, units with
  | n :: ns, u :: us =>
      let (h1, id) := alloc h (OCm {| cm_unit := u; cm_display_unit := None; cm_format := None |}) in
      let (h2, rest) := alloc_units h1 ns us in (h2, (n, id) :: rest)
  | _, _ => (h, [])
  end.

Definition rewrap (h : heap) (i : info) (new_name : option str) (new_units : option (list str)) : heap * option info :=
  match meta_of h i with
  | None => (h, None)
  | Some m =>
    let names := map fst (dict_of h i) in
    let old_units := map (fun nc => match cm_of h (snd nc) with Some c => cm_unit c | None => [] end) (dict_of h i) in
    let (h1, sid) := alloc h (OSet (dests_of h i)) in
    let (h2, mid) := alloc h1 (OMeta {| tm_name := match new_name with Some n => n | None => tm_name m end;
                                       tm_dests := sid; tm_origin := tm_origin m;
                                       tm_transposed := tm_transposed m; tm_strict := tm_strict m |}) in
    let (h3, d) := alloc_units h2 names (match new_units with Some us => us | None => old_units end) in
    let (h4, did) := alloc h3 (ODict d) in
    (h4, Some {| i_meta := mid; i_dict := did |})
  end.

(* ---------- mutations through one frame ---------- *)
Inductive mutation :=
| MSetUnit (col : str) (u : str)       (* t[col].unit = u *)
| MAddDest (d : str)                   (* t.destinations.add(d) *)
| MSetName (n : str)                   (* t.metadata.name = n *)
| MDelCol (col : str)                  (* the register entry goes (column deleted) *)
| MAddCol (col : str) (u : str).       (* facade add_column of a new column *)

Definition mutate (h : heap) (i : info) (m : mutation) : heap :=
  match m with
  | MSetUnit col u =>
      match dict_get col (dict_of h i) with
      | Some id => match cm_of h id with
                   | Some c => put h id (OCm {| cm_unit := u; cm_display_unit := cm_display_unit c; cm_format := cm_format c |})
                   | None => h
                   end
      | None => h
      end
  | MAddDest d =>
      match meta_of h i with
      | Some tm => put h (tm_dests tm) (OSet (dests_of h i ++ [d]))
      | None => h
      end
  | MSetName n =>
      match meta_of h i with
      | Some tm => put h (i_meta i) (OMeta {| tm_name := n; tm_dests := tm_dests tm; tm_origin := tm_origin tm;
                                              tm_transposed := tm_transposed tm; tm_strict := tm_strict tm |})
      | None => h
      end
  | MDelCol col =>
      put h (i_dict i) (ODict (filter (fun nc => negb (str_eqb (fst nc) col)) (dict_of h i)))
  | MAddCol col u =>
      match dict_get col (dict_of h i) with
      | Some _ => h
      | None =>
          let (h1, id) := alloc h (OCm {| cm_unit := u; cm_display_unit := None; cm_format := None |}) in
          put h1 (i_dict i) (ODict (dict_of h i ++ [(col, id)]))
      end
  end.
