(* M-Text: Python str operations that pdtable relies on, over code-point lists.
   Definitions only (proofs live in Proofs/). *)
From Coq Require Export List NArith Bool Arith.
Export ListNotations.
Local Open Scope N_scope.

Definition str := list N.

(* The 29 code points for which CPython's str.isspace() holds (= what strip() removes and
   what re's \s matches on str patterns).  Tied to the interpreter by an exhaustive sweep. *)
Definition is_space (c : N) : bool :=
  ((9 <=? c) && (c <=? 13)) || ((28 <=? c) && (c <=? 32)) || (c =? 133) || (c =? 160)
  || (c =? 5760) || ((8192 <=? c) && (c <=? 8202)) || (c =? 8232) || (c =? 8233)
  || (c =? 8239) || (c =? 8287) || (c =? 12288).

Fixpoint lstrip (s : str) : str :=
  match s with
  | [] => []
  | c :: t => if is_space c then lstrip t else s
  end.

Definition rstrip (s : str) : str := rev (lstrip (rev s)).
Definition strip (s : str) : str := rstrip (lstrip s).

(* not s.strip() *)
Definition is_blank (s : str) : bool := forallb is_space s.

Fixpoint str_eqb (a b : str) : bool :=
  match a, b with
  | [], [] => true
  | x :: a', y :: b' => (x =? y) && str_eqb a' b'
  | _, _ => false
  end.

(* str.lower() restricted to the alphabet on which it is per-character and ASCII-only
   (the harness only generates cells on which Python's lower() agrees with this). *)
Definition lower_c (c : N) : N := if (65 <=? c) && (c <=? 90) then c + 32 else c.
Definition lower (s : str) : str := map lower_c s.

(* s.split(sep) for a one-character sep: always at least one piece *)
Fixpoint split_on (sep : N) (s : str) : list str :=
  match s with
  | [] => [[]]
  | c :: t => if c =? sep then [] :: split_on sep t
              else match split_on sep t with
                   | [] => [[c]]
                   | p :: ps => (c :: p) :: ps
                   end
  end.

(* sep.join(cells), sep a string *)
Fixpoint join (sep : str) (cs : list str) : str :=
  match cs with
  | [] => []
  | [c] => c
  | c :: rest => c ++ sep ++ join sep rest
  end.

Definition has (c : N) (s : str) : bool := existsb (N.eqb c) s.

Fixpoint starts_with (p s : str) : bool :=
  match p, s with
  | [], _ => true
  | x :: p', y :: s' => (x =? y) && starts_with p' s'
  | _ :: _, [] => false
  end.

Definition ends_with_c (c : N) (s : str) : bool :=
  match rev s with x :: _ => x =? c | [] => false end.

(* text iteration: "for line in f" followed by rstrip("\n"):
   split at LF; a trailing LF does not open a further line; rstrip("\n") of each
   line removes the one LF (and nothing else since a line holds at most one, at its end).
   With universal newlines CR LF and CR were already translated to LF by the text layer. *)
Fixpoint lines_aux (cur : str) (s : str) : list str :=
  match s with
  | [] => match cur with [] => [] | _ => [rev cur] end
  | c :: t => if c =? 10 then rev cur :: lines_aux [] t else lines_aux (c :: cur) t
  end.
Definition lines (s : str) : list str := lines_aux [] s.

(* decimal rendering of a natural number, as str(int) *)
Definition digit_c (d : N) : N := 48 + d.
Fixpoint dec_aux (fuel : nat) (n : N) (acc : str) : str :=
  match fuel with
  | O => acc
  | S f => let acc' := digit_c (n mod 10) :: acc in
           if n / 10 =? 0 then acc' else dec_aux f (n / 10) acc'
  end.
Definition dec (n : N) : str := dec_aux (S (N.to_nat (N.log2 n))) n [].
