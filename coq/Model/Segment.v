(* M-Seg: parse_blocks_stable's segmentation automaton (pdtable/io/parsers/blocks.py:467-517),
   over an abstract row type and an abstract first-cell classifier, plus its instantiation
   on cell rows. *)
From PdV Require Export Text Marker Cell.

Inductive kind := KBlank0   (* no cells, or exactly one blank cell: never kept *)
                | KBlankP   (* blank first cell followed by further cells *)
                | KTable | KDir | KTempl | KKey | KPlain.
Inductive btype := BMeta | BDir | BTable | BTempl | BBlank.

Definition btype_eqb (a b : btype) : bool :=
  match a, b with
  | BMeta, BMeta | BDir, BDir | BTable, BTable | BTempl, BTempl | BBlank, BBlank => true
  | _, _ => false
  end.

Section Seg.
Variable R : Type.
Variable kind_of : R -> kind.

(* a block: type, origin row, rows *)
Definition block : Type := btype * nat * list R.

Record st := { cur : btype; grid : list R (* reversed *); first : nat;
               out : list block (* reversed *) }.

(* block_output: an empty grid emits nothing *)
Definition emit (s : st) : list block :=
  match grid s with [] => out s | _ => (cur s, first s, rev (grid s)) :: out s end.

(* one loop iteration; i = 0-based row index *)
Definition step (s : st) (ir : nat * R) : st :=
  let (i, r) := ir in
  let append := {| cur := cur s; grid := r :: grid s; first := first s; out := out s |} in
  let switch (t : btype) (keep : bool) :=
      {| cur := t; grid := if keep then [r] else []; first := i; out := emit s |} in
  match kind_of r with
  | KBlank0 => if btype_eqb (cur s) BBlank then s else switch BBlank false
  | KBlankP => if btype_eqb (cur s) BBlank then s else switch BBlank true
  | KTable => switch BTable true
  | KDir => switch BDir true
  | KTempl => switch BTempl true
  | KKey => if btype_eqb (cur s) BMeta then append else switch BBlank true
  | KPlain => append
  end.

Definition init : st := {| cur := BMeta; grid := []; first := 0; out := [] |}.

Fixpoint number {A} (i : nat) (l : list A) : list (nat * A) :=
  match l with [] => [] | x :: t => (i, x) :: number (S i) t end.

Definition run (rs : list R) : st := fold_left step (number 0 rs) init.
Definition segment (rs : list R) : list block := rev (emit (run rs)).
End Seg.

Arguments cur {R}. Arguments grid {R}. Arguments first {R}. Arguments out {R}.
Arguments emit {R}. Arguments step {R}. Arguments init {R}. Arguments run {R}.
Arguments segment {R}.

(* instantiation on cell rows *)
Definition kind_of_mkind (m : mkind) : kind :=
  match m with
  | MTable => KTable | MDirective => KDir | MTemplate => KTempl | MKey => KKey | MPlain => KPlain
  end.

Definition row_kind (r : row) : kind :=
  match r with
  | [] => KBlank0
  | c :: rest =>
    if cell_blank c then match rest with [] => KBlank0 | _ => KBlankP end
    else match c with
         | CStr s => kind_of_mkind (classify s)
         | _ => KPlain
         end
  end.

Definition segment_rows (rs : list row) : list (block row) := segment row_kind rs.
