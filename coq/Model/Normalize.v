(* M-Norm: normalized_table_generator (pdtable/utils.py): bulk unit conversion of the tables of a
   block stream, dispatched by table name; every other block passes through. *)
From PdV Require Export Convert.
Local Open Scope N_scope.

Section Norm.
Variable V : Type.
Variable conv : str -> option str -> V -> option (V * str).

Inductive sblock :=
| SBTable (name : str) (cols : list (column V))
| SBOther (tag : nat).                     (* any non-table block, or a table slot holding None *)

(* the table-level dispatcher: a dict or a callable from table name to a column dispatcher *)
Definition tdispatch := str -> option (dispatcher).

Definition norm_block (td : tdispatch) (b : sblock) : sblock + cerr :=
  match b with
  | SBTable n cols =>
      match td n with
      | None => inl b
      | Some d => match convert_units conv d cols with
                  | inl cols' => inl (SBTable n cols')
                  | inr e => inr e
                  end
      end
  | SBOther _ => inl b
  end.

(* a generator: the blocks yielded before the first failing conversion, and that error *)
Fixpoint normalize (td : tdispatch) (bs : list sblock) : list sblock * option cerr :=
  match bs with
  | [] => ([], None)
  | b :: rest =>
      match norm_block td b with
      | inr e => ([], Some e)
      | inl b' => let (out, err) := normalize td rest in (b' :: out, err)
      end
  end.
End Norm.

Arguments SBTable {V}. Arguments SBOther {V}. Arguments norm_block {V}. Arguments normalize {V}.
